"""Repository-wide bug-pattern rules that are exact on this tree (zero or triaged hits) and are attached to the property whose behaviour they protect."""
from facts import walk, path_of, see_through
from prims import as_assign


def dead_store_to_loop_copy(fx, res, rule, scope=lambda f: f['name'].startswith('opensmt::')):
    """In a range-based for whose variable is declared by value, an assignment to the variable after which the variable is not read again in the
    iteration has no effect on the container: the element that was meant to be updated keeps its old value."""
    n_loops = 0
    for f in fx.F.values():
        if not f.get('body') or not scope(f):
            continue
        for lp in walk(f['body'], f.get('lambdas', [])):
            if not (lp.get('k') == 'loop' and lp.get('kind') == 'range' and lp.get('var')):
                continue
            vt = lp.get('vt') or ''
            if '&' in vt or '*' in vt:
                continue
            n_loops += 1
            v = lp['var']
            nodes = list(walk(lp['body']))
            hits = []
            for i, n in enumerate(nodes):
                if n.get('as'):
                    continue
                a = as_assign(n)
                if not a or path_of(a[0]) != v:
                    continue
                inside = {id(x) for x in walk(n)}
                later = [x for x in nodes[i + 1:] if id(x) not in inside and x.get('k') == 'ref' and x.get('n') == v]
                if not later:
                    hits.append(n.get('ln'))
            for ln in hits:
                res.bad(rule, 'dead-store-to-loop-copy:%s:%s' % (f['name'].split('::')[-1], v), fx.loc(f, ln), '%s assigns to `%s`, the by-value variable of a range-based for, and never reads it again: '
                        'the element of the container is not updated (the loop variable should be a reference)' % (f['name'], v))
    rule['instances'] += n_loops
    return n_loops


def loop_summary_overwritten(fx, res, rule, scope=lambda f: f['name'].startswith('opensmt::')):
    """A Boolean local declared before a loop, plainly assigned (=) inside the loop from an expression over the loop's own variables, not read by the loop
    condition and read after the loop is a summary of the iterations that only remembers the last one (it was meant to be accumulated with &&= / ||=, or the
    loop was meant to stop at the first hit)."""
    n_loops = 0
    for f in fx.F.values():
        if not f.get('body') or not scope(f):
            continue
        for blk in (b for b in walk(f['body'], f.get('lambdas', [])) if b.get('k') == 'seq'):
            st = [x for x in blk['c'] if isinstance(x, dict)]
            for i, s in enumerate(st):
                if s.get('k') != 'loop':
                    continue
                n_loops += 1
                before = {d['n'] for d in st[:i] if d.get('k') == 'decl' and (d.get('ct') or '').replace('const ', '').strip() == 'bool'}
                if not before:
                    continue
                lv = set()
                if s.get('var'):
                    lv.add(s['var'])
                for part in (s.get('init'), s.get('body')):
                    if isinstance(part, dict):
                        lv |= {d['n'] for d in walk(part) if d.get('k') == 'decl'}
                cond_refs = {x.get('n') for x in walk(s.get('cond') or {}) if x.get('k') == 'ref'}
                for n in walk(s['body']):
                    if n.get('as') or not (n.get('k') == 'bin' and n.get('op') == '=' and isinstance(n.get('l'), dict) and n['l'].get('k') == 'ref' and n['l']['n'] in before):
                        continue
                    flag = n['l']['n']
                    rhs = see_through(n['r'])
                    if isinstance(rhs, dict) and rhs.get('k') == 'lit':
                        continue                       # found = true; ... the usual search flag
                    refs = {x.get('n') for x in walk(n['r']) if x.get('k') == 'ref'}
                    if flag in refs or not (refs & lv) or flag in cond_refs:
                        continue
                    if not any(x.get('k') == 'ref' and x.get('n') == flag for t in st[i + 1:] for x in walk(t)):
                        continue
                    if leaves_loop_after(s['body'], n):
                        continue                       # the loop stops at this element (search for the first hit): the value describes the element found
                    res.bad(rule, 'loop-summary-overwritten:%s:%s' % (f['name'].split('::')[-1], flag), fx.loc(f, n.get('ln')), '%s: the Boolean `%s` is assigned afresh in every iteration of the loop at line %s '
                            'from the current element and read after the loop: it describes the last element only, not all of them' % (f['name'], flag, s.get('ln')))
    rule['instances'] += n_loops
    return n_loops


def leaves_loop_after(body, assign):
    """the statement list that contains `assign` ends (after it) with break / return / throw / goto"""
    for blk in walk(body):
        if blk.get('k') != 'seq':
            continue
        items = [x for x in blk['c'] if isinstance(x, dict)]
        for i, st in enumerate(items):
            if any(x is assign for x in walk(st)) and not any(y.get('k') == 'seq' and any(x is assign for x in walk(y)) for y in walk(st) if y is not blk):
                return any(t.get('k') in ('break', 'ret', 'throw', 'goto') for t in items[i:])
    return False
