"""Repository-wide bug-pattern rules that are exact on this tree (zero or triaged hits) and are attached to the property whose behaviour they protect."""
from facts import walk, path_of, see_through
from prims import as_assign


def dead_store_to_loop_copy(fx, res, rule, scope=lambda f: f['name'].startswith('opensmt::')):
    """In a range-based for whose variable is declared by value, an assignment to the variable after which the variable is not read again in the
    iteration has no effect on the container: the element that was meant to be updated keeps its old value."""
    n_loops = 0
    for f in fx.F.values():
        if not f.get('body') or not scope(f):
            continue
        for lp in walk(f['body'], f.get('lambdas', [])):
            if not (lp.get('k') == 'loop' and lp.get('kind') == 'range' and lp.get('var')):
                continue
            vt = lp.get('vt') or ''
            if '&' in vt or '*' in vt:
                continue
            n_loops += 1
            v = lp['var']
            nodes = list(walk(lp['body']))
            hits = []
            for i, n in enumerate(nodes):
                if n.get('as'):
                    continue
                a = as_assign(n)
                if not a or path_of(a[0]) != v:
                    continue
                inside = {id(x) for x in walk(n)}
                later = [x for x in nodes[i + 1:] if id(x) not in inside and x.get('k') == 'ref' and x.get('n') == v]
                if not later:
                    hits.append(n.get('ln'))
            for ln in hits:
                res.bad(rule, 'dead-store-to-loop-copy:%s:%s' % (f['name'].split('::')[-1], v), fx.loc(f, ln), '%s assigns to `%s`, the by-value variable of a range-based for, and never reads it again: '
                        'the element of the container is not updated (the loop variable should be a reference)' % (f['name'], v))
    rule['instances'] += n_loops
    return n_loops
