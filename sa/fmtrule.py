"""Format / argument agreement for the repository's printf-style output functions (shared by C18 and C23).

Interpret::notify_formatted and comment_formatted walk their format with va_arg(char *) for %s and va_arg(int) for %d; the libc printf family follows the C
conversion table.  A conversion whose argument has another type reads the wrong number of bytes from the variadic area: with %d and a pointer the low half of
an address is printed (output then depends on address-space layout: C23), with %s and an integer the integer is dereferenced (crash: C18), with a missing
argument whatever lies in the register save area is used.  The rule compares, call by call, the literal format with the static types of the arguments.
"""
import re

from build import AnalysisBroken
from facts import fwalk, callee, see_through

HOME_MADE = {'opensmt::Interpret::notify_formatted': 1, 'opensmt::Interpret::comment_formatted': 0}     # index of the format parameter
LIBC = {'printf': 0, 'fprintf': 1, 'sprintf': 1, 'snprintf': 2, 'std::printf': 0, 'std::fprintf': 1, 'std::snprintf': 2, 'std::sprintf': 1}

INT_TYPES = re.compile(r'^(const )?(unsigned |signed )?(int|short|char|bool|unsigned|long|long long|unsigned long|unsigned long long|long unsigned int|long int|unsigned int|uint32_t|int32_t|uint8_t|'
                       r'uint16_t|int16_t|size_t|std::size_t|uint64_t|int64_t|std::uint32_t|std::int32_t|std::uint64_t|std::int64_t)( const)?$')
WIDE = re.compile(r'long|size_t|64')


def klass(t, fx=None):
    """'str' (char pointer), 'ptr', 'int', 'wide' (integer wider than int), 'float', 'object' (class by value: never valid through ...), 'enum'"""
    t = (t or '').replace('struct ', '').replace('class ', '').strip()
    if fx is not None:
        t = fx.expand_typedefs(t)
    t = re.sub(r'\s+', ' ', t)
    if re.search(r'char ?(const)? ?\*( ?const)?$', t) or re.match(r'^(const )?char ?\[\d*\]$', t):
        return 'str'
    if t.endswith('*') or t.endswith('* const') or '(*)' in t or t.endswith('&'):
        return 'ptr' if not t.endswith('&') else klass(t[:-1].strip(), fx)
    if t in ('double', 'float', 'const double', 'const float', 'long double'):
        return 'float'
    if INT_TYPES.match(t):
        return 'wide' if WIDE.search(t) else 'int'
    if t.startswith('enum ') or t.endswith('_t') and '::' in t and 'std::' not in t:
        return 'enum'
    if t.startswith(('std::basic_string', 'std::string', 'std::__cxx11::basic_string')):
        return 'object'
    return 'other'


SPEC = re.compile(r'%([-+ #0]*)(\d+|\*)?(?:\.(\d+|\*))?(hh|h|ll|l|z|j|t|L)?([a-zA-Z%])')


def conversions(fmt):
    out = []
    for m in SPEC.finditer(fmt):
        if m.group(5) == '%':
            continue
        if m.group(2) == '*':
            out.append(('*', '', m.group(0)))
        if m.group(3) == '*':
            out.append(('*', '', m.group(0)))
        out.append((m.group(5), m.group(4) or '', m.group(0)))
    return out


def literal_of(e):
    e = see_through(e)
    if isinstance(e, dict) and e.get('k') in ('lit', 'str') and isinstance(e.get('v'), str):
        return e['v']
    return None


def type_of(e):
    e0 = see_through(e)
    if not isinstance(e0, dict):
        return None
    if e0.get('k') == 'str':
        return 'const char *'
    if e0.get('k') == 'lit':
        v = e0.get('v')
        if isinstance(v, str):
            return 'const char *'
        if isinstance(v, bool):
            return 'bool'
        if isinstance(v, int):
            return e0.get('t') or 'int'
        if isinstance(v, float):
            return 'double'
    k = e0.get('k')
    if k == 'un':
        if e0.get('op') == '!':
            return 'bool'
        if e0.get('op') in ('++', '--', '-', '+', '~'):
            return type_of(e0['e'])
        if e0.get('op') == '*':
            t = type_of(e0['e']) or ''
            return t.rstrip(' const').rstrip('*').strip() if t.rstrip(' const').endswith('*') else None
        if e0.get('op') == '&':
            t = type_of(e0['e'])
            return (t + ' *') if t else None
    if k == 'bin':
        if e0.get('op') in ('==', '!=', '<', '>', '<=', '>=', '&&', '||'):
            return 'bool'
        if e0.get('op') in ('=', '+=', '-=', '*=', '/=', '%=', '|=', '&=', '^=', '<<=', '>>=', '<<', '>>'):
            return type_of(e0['l'])
        tl, tr = type_of(e0['l']), type_of(e0['r'])
        kl, kr = klass(tl), klass(tr)
        for want in ('str', 'ptr', 'float', 'wide'):
            if kl == want:
                return tl
            if kr == want:
                return tr
        return tl or tr
    if k == 'cond':
        return type_of(e0['t']) or type_of(e0['f'])
    if k == 'idx':
        t = type_of(e0['b']) or ''
        return t.rstrip(' const').rstrip('*').strip() if t.rstrip(' const').endswith('*') else None
    t = e0.get('t')
    if k == 'call' and not t:
        return None
    return t


def walker_table(fx, name):
    """conversion character -> class of the type the walker fetches with va_arg for it, read from the walker's own switch"""
    from facts import walk
    f = fx.func(name)
    tab = {}
    for sw in (x for x in walk(f['body']) if x.get('k') == 'switch'):
        for c in (x for x in walk(sw['body']) if x.get('k') == 'case' and isinstance(x.get('v'), dict) and x['v'].get('k') == 'chr'):
            ch = chr(c['v']['v'])
            fetch = [y for y in walk(c.get('body') or {}) if isinstance(y, dict) and y.get('k') == 'bin' and y.get('op') == '=' and isinstance(y.get('r'), dict) and y['r'].get('cls') == 'VAArgExpr']
            b = c.get('body')
            if isinstance(b, dict) and b.get('k') == 'e' and isinstance(b.get('e'), dict) and b['e'].get('k') == 'bin' and isinstance(b['e'].get('r'), dict) and b['e']['r'].get('cls') == 'VAArgExpr':
                fetch = [b['e']]
            if fetch:
                k = klass(fetch[0].get('lt'))
                if k not in ('str', 'int', 'wide', 'float', 'ptr'):
                    raise AnalysisBroken('%s fetches a variadic argument of an unclassified type `%s` for %%%s' % (name, fetch[0].get('lt'), ch))
                tab[ch] = k
    if not tab:
        raise AnalysisBroken('%s: no va_arg fetch found in a switch over the format (anchor)' % name)
    return tab


def accepts(conv, length, k, home_made):
    if home_made:
        want = home_made.get(conv)          # conversions the walker does not know are dropped and shift the arguments
        return want is not None and (k == want or (want == 'int' and k == 'enum'))
    if conv == '*':
        return k == 'int'
    if conv == 's':
        return k == 'str'
    if conv == 'p':
        return k in ('ptr', 'str')
    if conv == 'c':
        return k == 'int'
    if conv in 'diuxXo':
        if length in ('l', 'll', 'z', 'j', 't'):
            return k in ('wide',)
        return k in ('int', 'enum')
    if conv in 'fFeEgGaA':
        return k == 'float'
    return False


def format_rule(fx, res, floor=60):
    r = res.rule('format-arguments-match', 'every call of Interpret::notify_formatted / comment_formatted (format walkers knowing %s = char *, %d = int, %%) and of the libc printf family with a '
                 'literal format passes exactly one argument of the matching static type per conversion', floor=floor)
    n_calls = 0
    tables = {name: walker_table(fx, name) for name in HOME_MADE}
    for f in sorted(fx.F.values(), key=lambda f: f['name']):
        if not f.get('body'):
            continue
        for n in fwalk(f):
            if n.get('k') != 'call' or n.get('as'):
                continue
            c = callee(n)
            if c in HOME_MADE:
                fi, home = HOME_MADE[c], tables[c]
            elif c in LIBC:
                fi, home = LIBC[c], None
            else:
                continue
            args = n.get('a') or []
            if len(args) <= fi:
                continue
            fmt = literal_of(args[fi])
            if fmt is None:
                continue                  # non-literal formats are the business of C18's format-literal rule
            n_calls += 1
            convs = conversions(fmt)
            rest = args[fi + 1:]
            where = fx.loc(f, n.get('ln'))
            short = c.split('::')[-1]
            if len(convs) != len(rest):
                res.bad(r, 'format-argument-count:%s:%s' % (f['name'].split('::')[-1], short), where, '%s: %s("%s") has %d conversion(s) for %d argument(s): %s' %
                        (f['name'].replace('opensmt::', ''), short, fmt, len(convs), len(rest),
                         'the walker reads a variadic argument that was never passed (indeterminate bytes reach the output or are dereferenced)' if len(convs) > len(rest)
                         else 'the surplus arguments are never printed'))
                continue
            bad = None
            vts = (n.get('vt') or [])[fi + 1:]
            for j, ((conv, length, text), a) in enumerate(zip(convs, rest)):
                t = vts[j] if j < len(vts) and vts[j] else type_of(a)
                k = klass(t, fx)
                if k == 'other' and t is None:
                    raise AnalysisBroken('format-arguments-match: no static type for an argument of %s at %s' % (short, where))
                if not accepts(conv, length, k, home):
                    bad = (text, t, k)
                    break
            if bad:
                text, t, k = bad
                effect = {'ptr': 'part of an address is printed, so the output changes with the address-space layout', 'str': 'part of an address is printed, so the output changes with the '
                          'address-space layout', 'object': 'a class object is passed through the ellipsis'}.get(k, 'the walker reads the variadic area with the wrong type')
                if text.endswith('s') and k in ('int', 'wide', 'enum', 'float'):
                    effect = 'a number is dereferenced as a character pointer'
                res.bad(r, 'format-argument-mismatch:%s:%s' % (f['name'].split('::')[-1], short), where, '%s: %s("%s"): conversion %s receives an argument of type `%s`: %s' %
                        (f['name'].replace('opensmt::', ''), short, fmt, text, t, effect))
            else:
                res.ok(r, '%s %s("%s")' % (where, short, fmt[:40]))
    if n_calls == 0:
        raise AnalysisBroken('format-arguments-match: no printf-style call with a literal format found')
    return r
