"""Result / finding / evidence plumbing shared by every rule module."""
import json
import os
import time

VERIF = os.path.dirname(os.path.dirname(os.path.abspath(__file__)))


class Finding:
    """One violated rule instance. `key` is a stable identity built from names (never line numbers):
    it is what known_findings.json lists, so a *different* violation of the same property still fires."""

    def __init__(self, rule, key, where, msg, witness=None):
        self.rule, self.key, self.where, self.msg, self.witness = rule, key, where, msg, witness or []

    def to_json(self):
        return {'rule': self.rule, 'key': self.key, 'where': self.where, 'message': self.msg, 'witness': self.witness}


class Result:
    def __init__(self, pid):
        self.pid = pid
        self.findings = []
        self.rules = []            # per rule: dict(name, text, instances, floor, discharged)
        self.samples = []
        self.assumptions = []
        self.notes = []
        self.extra = {}

    def rule(self, name, text, floor=0):
        r = {'name': name, 'text': text, 'instances': 0, 'floor': floor, 'violations': 0, 'sites': []}
        self.rules.append(r)
        return r

    def ok(self, r, site):
        """record a discharged rule instance"""
        r['instances'] += 1
        if len(r['sites']) < 400:
            r['sites'].append(site)

    def bad(self, r, key, where, msg, witness=None):
        r['instances'] += 1
        r['violations'] += 1
        self.findings.append(Finding(r['name'], key, where, msg, witness))

    def check_floors(self):
        from build import AnalysisBroken
        for r in self.rules:
            if r['instances'] < r['floor']:
                raise AnalysisBroken('rule %s matched %d instance(s), below the hand-confirmed floor %d (matcher or anchor drifted)'
                                     % (r['name'], r['instances'], r['floor']))


def load_known():
    p = os.path.join(VERIF, 'known_findings.json')
    if not os.path.exists(p):
        return {'findings': [], 'fixed': []}
    return json.load(open(p))


def write_evidence(pid, tier, seed, level, coverage, assumptions, wall_s, violations):
    os.makedirs(os.path.join(VERIF, 'evidence'), exist_ok=True)
    ev = {'property_id': pid, 'tier': tier, 'seed': seed, 'level': level, 'coverage': coverage,
          'assumptions': assumptions, 'wall_s': round(wall_s, 2), 'violations': violations}
    p = os.path.join(VERIF, 'evidence', pid + '.json')
    json.dump(ev, open(p + '.tmp', 'w'), indent=1)
    os.replace(p + '.tmp', p)
    return p
